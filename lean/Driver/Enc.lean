import Driver.Codec
import UgoVerif.Model.Enc
import UgoVerif.Gen.EncBuiltins
/-
  Driver side of the `enc` / `dec` correspondence streams (C04, C18).
  Protocol: notes/enc-protocol.md.  Not part of the proofs.
-/
namespace Driver
namespace EncDrv
open UgoVerif.Go UgoVerif.Model.Enc

def decOfInt (v : BitVec 64) : String := toString v.toInt

/-- insertion sort by a key -/
def insertBy {α} (lt : α → α → Bool) (x : α) : List α → List α
  | [] => [x]
  | y :: r => if lt x y then x :: y :: r else y :: insertBy lt x r
def sortBy {α} (lt : α → α → Bool) (xs : List α) : List α := xs.foldr (insertBy lt) []

def showCF (f : CF) : String :=
  let i := match f.instructions with
    | none => "-"
    | some b => hexOfBytes b
  let m := match f.sourceMap with
    | none => "-"
    | some sm =>
      let sorted := sortBy (fun (a b : BitVec 64 × BitVec 64) => a.1.toInt < b.1.toInt) sm
      "(" ++ ",".intercalate (sorted.map fun kv => decOfInt kv.1 ++ ":" ++ decOfInt kv.2) ++ ")"
  "F[p=" ++ decOfInt f.numParams ++ " l=" ++ decOfInt f.numLocals ++ " v=" ++ (if f.variadic then "1" else "0") ++
    " i=" ++ i ++ " m=" ++ m ++ "]"

partial def showObj : Obj → String
  | .nil => "N"
  | .undefined => "u"
  | .bool b => if b then "b1" else "b0"
  | .int v => "i" ++ hexOfNat 16 v.toNat
  | .uint v => "n" ++ hexOfNat 16 v.toNat
  | .char v => "c" ++ hexOfNat 8 v.toNat
  | .float v => "f" ++ hexOfNat 16 v.toNat
  | .str s => "s" ++ hexOfBytes s
  | .bytes s => "y" ++ hexOfBytes s
  | .array xs => "a(" ++ " ".intercalate (xs.map showObj) ++ ")"
  | .map kvs => "m(" ++ showKVs kvs ++ ")"
  | .syncMap true _ => "S-"
  | .syncMap false kvs => "S(" ++ showKVs kvs ++ ")"
  | .compiledFunction f => showCF f
  | .function n => "G" ++ hexOfBytes n
  | .builtinFunction n => "B" ++ hexOfBytes n
  | .gob tn _ => "o" ++ tn
where
  showKVs (kvs : List (Bytes × Obj)) : String :=
    let sorted := sortBy (fun (a b : Bytes × Obj) => bytesCompare a.1 b.1 == -1) kvs
    " ".intercalate (sorted.map fun (k, v) => hexOfBytes k ++ "=" ++ showObj v)

def showSrcFile (f : SrcFile) : String :=
  "SF[name=" ++ hexOfBytes f.name ++ " base=" ++ decOfInt f.base ++ " size=" ++ decOfInt f.size ++
    " lines=(" ++ ",".intercalate (f.lines.map decOfInt) ++ ")]"

def showBC (bc : BC) : String :=
  let fs := match bc.fileSet with
    | none => "-"
    | some fs => "FS[base=" ++ decOfInt fs.base ++ " files=(" ++ ";".intercalate (fs.files.map showSrcFile) ++ ")]"
  let main := match bc.main with
    | none => "-"
    | some f => showCF f
  let cs := match bc.constants with
    | none => "-"
    | some xs => showObj (.array xs)
  "BC{fs=" ++ fs ++ " main=" ++ main ++ " consts=" ++ cs ++ " nm=" ++ decOfInt bc.numModules ++ "}"

/-! parser of the object syntax (only used for the `mods` field) -/

def parseDec (cs : List Char) : Option (Int × List Char) :=
  let (neg, cs) := match cs with
    | '-' :: r => (true, r)
    | _ => (false, cs)
  let (ds, r) := cs.span Char.isDigit
  if ds.isEmpty then none
  else
    let n : Nat := ds.foldl (fun a c => a * 10 + (c.toNat - 48)) 0
    some (if neg then -(n : Int) else (n : Int), r)

def expect (s : String) (cs : List Char) : Option (List Char) :=
  let p := s.toList
  if cs.take p.length == p then some (cs.drop p.length) else none

def parseCF (cs : List Char) : Option (CF × List Char) := do
  let cs ← expect "F[p=" cs
  let (p, cs) ← parseDec cs
  let cs ← expect " l=" cs
  let (l, cs) ← parseDec cs
  let cs ← expect " v=" cs
  let (v, cs) ← match cs with
    | '0' :: r => some (false, r)
    | '1' :: r => some (true, r)
    | _ => none
  let cs ← expect " i=" cs
  let (insts, cs) ← match cs with
    | '-' :: r => some (none, r)
    | _ => let (h, r) := spanHex cs; do let b ← bytesOfHex h; pure (some b, r)
  let cs ← expect " m=" cs
  let (sm, cs) ← match cs with
    | '-' :: r => some (none, r)
    | '(' :: r =>
      let rec pairs (cs : List Char) (acc : List (BitVec 64 × BitVec 64)) (fuel : Nat) :
          Option (List (BitVec 64 × BitVec 64) × List Char) :=
        match fuel with
        | 0 => none
        | fuel + 1 =>
          match cs with
          | ')' :: r => some (acc.reverse, r)
          | ',' :: r => pairs r acc fuel
          | cs => do
            let (k, cs) ← parseDec cs
            let cs ← expect ":" cs
            let (v, cs) ← parseDec cs
            pairs cs ((BitVec.ofInt 64 k, BitVec.ofInt 64 v) :: acc) fuel
      do let (ps, r) ← pairs r [] (r.length + 1); pure (some ps, r)
    | _ => none
  let cs ← expect "]" cs
  pure ({ numParams := BitVec.ofInt 64 p, numLocals := BitVec.ofInt 64 l, instructions := insts,
          variadic := v, sourceMap := sm }, cs)

partial def parseObj (cs : List Char) : Option (Obj × List Char) :=
  match cs with
  | 'N' :: r => some (.nil, r)
  | 'u' :: r => some (.undefined, r)
  | 'b' :: '0' :: r => some (.bool false, r)
  | 'b' :: '1' :: r => some (.bool true, r)
  | 'i' :: r => let (h, r) := spanHex r; do let n ← natOfHex h; pure (.int (BitVec.ofNat 64 n), r)
  | 'n' :: r => let (h, r) := spanHex r; do let n ← natOfHex h; pure (.uint (BitVec.ofNat 64 n), r)
  | 'c' :: r => let (h, r) := spanHex r; do let n ← natOfHex h; pure (.char (BitVec.ofNat 32 n), r)
  | 'f' :: r => let (h, r) := spanHex r; do let n ← natOfHex h; pure (.float (BitVec.ofNat 64 n), r)
  | 's' :: r => let (h, r) := spanHex r; do let b ← bytesOfHex h; pure (.str b, r)
  | 'y' :: r => let (h, r) := spanHex r; do let b ← bytesOfHex h; pure (.bytes b, r)
  | 'G' :: r => let (h, r) := spanHex r; do let b ← bytesOfHex h; pure (.function b, r)
  | 'B' :: r => let (h, r) := spanHex r; do let b ← bytesOfHex h; pure (.builtinFunction b, r)
  | 'a' :: '(' :: r =>
    let rec elems (cs : List Char) (acc : List Obj) : Option (List Obj × List Char) :=
      match cs with
      | ')' :: r => some (acc.reverse, r)
      | ' ' :: r => elems r acc
      | [] => none
      | cs => do let (v, r) ← parseObj cs; elems r (v :: acc)
    do let (xs, r) ← elems r []; pure (.array xs, r)
  | 'm' :: '(' :: r => do let (kvs, r) ← ents r []; pure (.map kvs, r)
  | 'S' :: '-' :: r => some (.syncMap true [], r)
  | 'S' :: '(' :: r => do let (kvs, r) ← ents r []; pure (.syncMap false kvs, r)
  | 'F' :: _ => do let (f, r) ← parseCF cs; pure (.compiledFunction f, r)
  | 'o' :: r =>
    let (tn, r) := r.span (fun c => !(c == ',' || c == ';' || c == ' ' || c == ')' || c == ']'))
    some (.gob (String.ofList tn) 0, r)
  | _ => none
where
  ents (cs : List Char) (acc : List (Bytes × Obj)) : Option (List (Bytes × Obj) × List Char) :=
    match cs with
    | ')' :: r => some (acc.reverse, r)
    | ' ' :: r => ents r acc
    | [] => none
    | cs =>
      let (h, r) := spanHex cs
      match r with
      | '=' :: r => do
        let k ← bytesOfHex h
        let (v, r) ← parseObj r
        ents r ((k, v) :: acc)
      | _ => none

/-- `mods` field: `-` or `hexname:hexkey=<obj>,hexkey=<obj>;hexname:…` -/
partial def parseMods (s : String) : Option (List (Bytes × List (Bytes × Obj))) :=
  if s == "-" then some [] else
  let rec attrs (cs : List Char) (acc : List (Bytes × Obj)) : Option (List (Bytes × Obj) × List Char) :=
    match cs with
    | [] => some (acc.reverse, [])
    | ';' :: r => some (acc.reverse, r)
    | ',' :: r => attrs r acc
    | cs =>
      let (h, r) := spanHex cs
      match r with
      | '=' :: r => do
        let k ← bytesOfHex h
        let (v, r) ← parseObj r
        attrs r ((k, v) :: acc)
      | _ => none
  let rec mods (cs : List Char) (acc : List (Bytes × List (Bytes × Obj))) :
      Option (List (Bytes × List (Bytes × Obj))) :=
    match cs with
    | [] => some acc.reverse
    | cs =>
      let (h, r) := spanHex cs
      match r with
      | ':' :: r => do
        let name ← bytesOfHex h
        let (as, r) ← attrs r []
        mods r ((name, as) :: acc)
      | _ => none
  mods s.toList []

def builtinNames : List Bytes := UgoVerif.Gen.EncBuiltins.builtinFnNames.map fun s => s.toUTF8.toList

/-- the driver has no gob codec: a model run that reaches gob echoes the claimed answer -/
def encCtx : Ctx where
  gobDec := fun _ => none
  gobAlloc := fun _ => 0
  gobEnc := fun _ _ => []
  isBuiltinFn := fun n => builtinNames.contains n

def modsOf (ms : List (Bytes × List (Bytes × Obj))) : Mods := fun n => lookupKV n ms

def classOf {α} (r : Res α) (okText : α → String) : String :=
  match r with
  | .ok a => "ok " ++ okText a
  | .err (.other "model" m) => "model-error " ++ m
  | .err _ => "err"
  | .panic _ => "panic"

def handleEncDec (withReenc : Bool) : List String → String
  | ["obj", hexE, claimed] =>
    match bytesOfHex hexE.toList with
    | none => "bad-hex"
    | some e =>
      let d := decodeObject encCtx e
      if d.gob then claimed
      else classOf d.res fun (o, rest) =>
        showObj o ++ " rest=" ++ toString rest.length ++
          (if withReenc then " reenc=" ++ hexOfBytes (encodeObject encCtx o) else "")
  | ["bc", mods, hexE, claimed] =>
    match bytesOfHex hexE.toList, parseMods mods with
    | some e, some ms =>
      let d := decodeBytecode encCtx (fun bc => .ok bc) (modsOf ms) e
      if d.gob then claimed
      else classOf d.res fun bc =>
        -- the re-encoding is taken before fixObjects (which replaces module items by the live
        -- objects listed, key-sorted, in `mods`): it must reproduce the input bytes exactly
        let pre := match (bcLoopF encCtx (3 * e.length + 16) (e.drop 6) {}).res with
          | .ok b => b
          | _ => bc
        showBC bc ++ (if withReenc then " reenc=" ++ hexOfBytes (encodeBytecode encCtx pre) else "")
    | _, _ => "bad-request"
  | _ => "bad-request"

def handleEnc (args : List String) : String := handleEncDec true args
def handleDec (args : List String) : String := handleEncDec false args

end EncDrv
end Driver
