import UgoVerif.Model.ModStore
/-
  Driver for the module-store model (stream `modules`, property C12):
    ms <fuel> <main imports: a,b,…> <modules: name=S:i1,i2,…;name=B;…>
  answer: `ok <NumModules>` | `err cyclic <name>` | `err notfound <name>` | `err fuel`
-/
namespace Driver
open UgoVerif.Model.ModStore

def csv (s : String) : List String := (s.splitOn ",").filter (· ≠ "")

def parseMod (w : String) : Option (String × Src) :=
  match w.splitOn "=" with
  | [name, "B"] => some (name, .builtin)
  | [name, rhs] =>
    if rhs.startsWith "S:" then some (name, .source (csv (String.ofList (rhs.toList.drop 2)))) else none
  | _ => none

def handleMs (args : List String) : String :=
  let args := match args.reverse with
    | c :: rest => if c.startsWith "#" then rest.reverse else args
    | [] => args
  match args with
  | [fuelS, mainS, modsS] =>
    match ((modsS.splitOn ";").filter (· ≠ "")).mapM parseMod with
    | none => "bad-op"
    | some mm =>
      match compileMain mm fuelS.toNat! (csv mainS) with
      | .ok st => s!"ok {numModules st}"
      | .error (.cyclic n) => s!"err cyclic {n}"
      | .error (.notFound n) => s!"err notfound {n}"
      | .error .fuel => "err fuel"
  | _ => "bad-op"

end Driver
