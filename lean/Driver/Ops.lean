import Driver.Codec
import UgoVerif.Model.Ops
import UgoVerif.Spec.OperatorsDoc
import UgoVerif.Gen.Unary
namespace Driver
open UgoVerif UgoVerif.Go UgoVerif.Model

/-- `ops <tok> <a> <b> <hex of b.String()>` -> `eq=.. ne=.. bin=<res> doc=<docs/operators.md>` -/
def handleOps (args : List String) : String :=
  match args with
  | [tokS, aS, bS, strB] =>
    match tokOfName tokS, parseValStr aS, parseValStr bS, bytesOfHex strB.toList with
    | some tok, some a, some b, some sb =>
      let S : ObjOps := { toStr := fun _ => sb }
      let eq := valEqual nativeFloat a b
      let ne := match opNotEqual nativeFloat a b with | .bool r => r | _ => false
      let doc := Spec.OperatorsDoc.showDoc showVal (Spec.OperatorsDoc.docArith nativeFloat tok a b)
      s!"eq={if eq then 1 else 0} ne={if ne then 1 else 0} bin={showRes (binaryOp nativeFloat S tok a b)} doc={doc}"
    | _, _, _, _ => "bad-op"
  | _ => "bad-op"

/-- `unop <tok> <a> <falsy 0|1>` -> `un=<xOpUnary> doc=<docs/operators.md>` -/
def handleUnop (args : List String) : String :=
  match args with
  | [tokS, aS, fS] =>
    match tokOfName tokS, parseValStr aS with
    | some tok, some a =>
      let doc := Spec.OperatorsDoc.showDoc showVal (Spec.OperatorsDoc.docUnary nativeFloat tok a)
      s!"un={showRes (Gen.xOpUnary nativeFloat (fun _ => fS == "1") tok a)} doc={doc}"
    | _, _ => "bad-op"
  | _ => "bad-op"

end Driver
