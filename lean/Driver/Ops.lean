import Driver.Codec
import UgoVerif.Model.Ops
namespace Driver
open UgoVerif UgoVerif.Go UgoVerif.Model

/-- `ops <tok> <a> <b> <hex of b.String()>` -> `eq=.. ne=.. bin=<res>` -/
def handleOps (args : List String) : String :=
  match args with
  | [tokS, aS, bS, strB] =>
    match tokOfName tokS, parseValStr aS, parseValStr bS, bytesOfHex strB.toList with
    | some tok, some a, some b, some sb =>
      let S : ObjOps := { toStr := fun _ => sb }
      let eq := valEqual nativeFloat a b
      let ne := match opNotEqual nativeFloat a b with | .bool r => r | _ => false
      s!"eq={if eq then 1 else 0} ne={if ne then 1 else 0} bin={showRes (binaryOp nativeFloat S tok a b)}"
    | _, _, _, _ => "bad-op"
  | _ => "bad-op"

end Driver
