import Driver.AstParse
import UgoVerif.Model.Compile
import UgoVerif.Spec.AstShape
/-
  `compile <disabled,comma-separated-hex> <ast>` → canonical text of the Bytecode produced by the
  compiler model (NoOptimize): main function, constants, source maps.
-/
namespace Driver
open UgoVerif UgoVerif.Go UgoVerif.Ast UgoVerif.Compile

def sortPairs (m : List (Nat × Nat)) : List (Nat × Nat) :=
  m.foldr (fun p acc =>
    let rec ins (p : Nat × Nat) : List (Nat × Nat) → List (Nat × Nat)
      | [] => [p]
      | q :: r => if p.1 < q.1 then p :: q :: r else q :: ins p r
    ins p acc) []

def showFn (f : CFn) : String :=
  let sm := ",".intercalate ((sortPairs f.sourceMap).map fun (k, v) => s!"{k}:{v}")
  s!"F{f.numParams},{f.numLocals},{if f.variadic then 1 else 0},{hexOfBytes f.insts.toList}|{sm}"

def showCVal : CVal → String
  | .int v => "i" ++ hexOfNat 16 v.toNat
  | .uint v => "n" ++ hexOfNat 16 v.toNat
  | .float v => "f" ++ hexOfNat 16 (canonNaN v).toNat
  | .char v => "c" ++ hexOfNat 8 v.toNat
  | .bool b => if b then "b1" else "b0"
  | .str s => "s" ++ hexOfBytes s
  | .undefined => "u"

def showConst : Const → String
  | .val v => showCVal v
  | .fn f => showFn f

/-- the BuiltinsMap of builtins.go, regenerated as Gen.builtin* indices -/
def builtinsMap : List (String × Nat) := [
  ("append", Gen.builtinAppend), ("delete", Gen.builtinDelete), ("copy", Gen.builtinCopy),
  ("repeat", Gen.builtinRepeat), ("contains", Gen.builtinContains), ("len", Gen.builtinLen),
  ("sort", Gen.builtinSort), ("sortReverse", Gen.builtinSortReverse), ("error", Gen.builtinError),
  ("typeName", Gen.builtinTypeName), ("bool", Gen.builtinBool), ("int", Gen.builtinInt),
  ("uint", Gen.builtinUint), ("float", Gen.builtinFloat), ("char", Gen.builtinChar),
  ("string", Gen.builtinString), ("bytes", Gen.builtinBytes), ("chars", Gen.builtinChars),
  ("printf", Gen.builtinPrintf), ("println", Gen.builtinPrintln), ("sprintf", Gen.builtinSprintf),
  ("globals", Gen.builtinGlobals), ("isError", Gen.builtinIsError), ("isInt", Gen.builtinIsInt),
  ("isUint", Gen.builtinIsUint), ("isFloat", Gen.builtinIsFloat), ("isChar", Gen.builtinIsChar),
  ("isBool", Gen.builtinIsBool), ("isString", Gen.builtinIsString), ("isBytes", Gen.builtinIsBytes),
  ("isMap", Gen.builtinIsMap), ("isSyncMap", Gen.builtinIsSyncMap), ("isArray", Gen.builtinIsArray),
  ("isUndefined", Gen.builtinIsUndefined), ("isFunction", Gen.builtinIsFunction),
  ("isCallable", Gen.builtinIsCallable), ("isIterable", Gen.builtinIsIterable),
  ("WrongNumArgumentsError", Gen.builtinWrongNumArgumentsError),
  ("InvalidOperatorError", Gen.builtinInvalidOperatorError),
  ("IndexOutOfBoundsError", Gen.builtinIndexOutOfBoundsError),
  ("NotIterableError", Gen.builtinNotIterableError), ("NotIndexableError", Gen.builtinNotIndexableError),
  ("NotIndexAssignableError", Gen.builtinNotIndexAssignableError),
  ("NotCallableError", Gen.builtinNotCallableError), ("NotImplementedError", Gen.builtinNotImplementedError),
  ("ZeroDivisionError", Gen.builtinZeroDivisionError), ("TypeError", Gen.builtinTypeError),
  (":makeArray", Gen.builtinMakeArray), ("cap", Gen.builtinCap)]

def handleCompile (args : List String) : String :=
  match args with
  | [_opts, astS] =>
    match parseFile astS with
    | none => "bad-ast"
    | some file =>
      -- the shape hypothesis of theorem compile_no_panic, checked on every AST the parser ships
      if !okSs file then "bad-shape: assignment with an empty left-hand side" else
      -- the hypothesis `BuiltinsOK` of the C05 theorems, checked on the table the driver passes
      if !(builtinsMap.all fun p => p.2 < Gen.numBuiltins) then "bad-builtins: index out of range" else
      match compileFile builtinsMap [] file with
      | .ok bc => "ok " ++ showFn bc.main ++ " ; " ++ " ".intercalate (bc.constants.toList.map showConst)
      | .error (.err pos msg) => s!"err {pos} {msg}"
      | .error (.bare msg) => s!"err - {msg}"
      | .error (.panic _) => "panic"
      | .error (.unsupported m) => "unsupported " ++ m
  | _ => "bad-op"

end Driver
