import Driver.Codec
import UgoVerif.Spec.Ast
/-
  S-expression reader for the AST shipped by harness/astenc.
-/
namespace Driver
open UgoVerif UgoVerif.Go UgoVerif.Ast

inductive Sexp where
  | atom (s : String)
  | list (xs : List Sexp)
  deriving Inhabited, Repr

partial def parseSexp (cs : List Char) : Option (Sexp × List Char) :=
  match cs with
  | ' ' :: r => parseSexp r
  | '(' :: r =>
    let rec items (cs : List Char) (acc : List Sexp) : Option (List Sexp × List Char) :=
      match cs with
      | ' ' :: r => items r acc
      | ')' :: r => some (acc.reverse, r)
      | [] => none
      | cs => do let (x, r) ← parseSexp cs; items r (x :: acc)
    do let (xs, r) ← items r []; pure (.list xs, r)
  | [] => none
  | cs =>
    let (a, r) := cs.span (fun c => c != ' ' && c != '(' && c != ')')
    if a.isEmpty then none else some (.atom (String.ofList a), r)

def atomNat : Sexp → Option Nat
  | .atom s => s.toNat?
  | _ => none

def atomHexNat : Sexp → Option Nat
  | .atom s => natOfHex s.toList
  | _ => none

/-- hex-encoded text; "-" is the empty string -/
def atomBytes : Sexp → Option Bytes
  | .atom "-" => some []
  | .atom s => bytesOfHex s.toList
  | _ => none

def atomStr (x : Sexp) : Option String := do
  let b ← atomBytes x
  pure (String.fromUTF8! (ByteArray.mk b.toArray))

mutual
partial def toExpr (x : Sexp) : Option Expr :=
  match x with
  | .list [.atom "int", p, v] => do pure (.int (← atomNat p) (BitVec.ofNat 64 (← atomHexNat v)))
  | .list [.atom "uint", p, v] => do pure (.uint (← atomNat p) (BitVec.ofNat 64 (← atomHexNat v)))
  | .list [.atom "float", p, v] => do pure (.float (← atomNat p) (BitVec.ofNat 64 (← atomHexNat v)))
  | .list [.atom "char", p, v] => do pure (.char (← atomNat p) (BitVec.ofNat 32 (← atomHexNat v)))
  | .list [.atom "bool", p, v] => do pure (.bool (← atomNat p) ((← atomNat v) == 1))
  | .list [.atom "str", p, v] => do pure (.str (← atomNat p) (← atomBytes v))
  | .list [.atom "undef", p] => do pure (.undef (← atomNat p))
  | .list [.atom "id", p, n] => do pure (.ident (← atomNat p) (← atomStr n))
  | .list [.atom "arr", p, .list es] => do pure (.array (← atomNat p) (← es.mapM toExpr))
  | .list [.atom "map", p, .list es] => do
    let kvs ← es.mapM (fun e => match e with
      | .list [k, v] => do pure ((← atomStr k), (← toExpr v))
      | _ => none)
    pure (.map (← atomNat p) kvs)
  | .list [.atom "un", p, t, e] => do pure (.unary (← atomNat p) (← atomNat t) (← toExpr e))
  | .list [.atom "bin", p, t, l, r] => do pure (.binary (← atomNat p) (← atomNat t) (← toExpr l) (← toExpr r))
  | .list [.atom "cond", p, c, t, f] => do pure (.cond (← atomNat p) (← toExpr c) (← toExpr t) (← toExpr f))
  | .list [.atom "paren", p, e] => do pure (.paren (← atomNat p) (← toExpr e))
  | .list [.atom "idx", p, e, i] => do pure (.index (← atomNat p) (← toExpr e) (← toExpr i))
  | .list [.atom "sel", p, e, s] => do pure (.selector (← atomNat p) (← toExpr e) (← toExpr s))
  | .list [.atom "slice", p, e, lo, hi] => do
    pure (.slice (← atomNat p) (← toExpr e) (← toOptExpr lo) (← toOptExpr hi))
  | .list [.atom "call", p, el, f, .list as] => do
    pure (.call (← atomNat p) ((← atomNat el) == 1) (← toExpr f) (← as.mapM toExpr))
  | .list [.atom "func", p, va, .list ps, body] => do
    let (bp, ss) ← toBlock body
    pure (.func (← atomNat p) ((← atomNat va) == 1) (← ps.mapM atomStr) bp ss)
  | .list [.atom "import", p, n] => do pure (.import_ (← atomNat p) (← atomStr n))
  | _ => none

partial def toOptExpr (x : Sexp) : Option (Option Expr) :=
  match x with
  | .atom "nil" => some none
  | x => do pure (some (← toExpr x))

partial def toBlock (x : Sexp) : Option (Pos × List Stmt) :=
  match x with
  | .atom "nil" => some (0, [])
  | .list (.atom "block" :: p :: ss) => do pure ((← atomNat p), (← ss.mapM toStmt))
  | _ => none

partial def toOptStmt (x : Sexp) : Option (Option Stmt) :=
  match x with
  | .atom "nil" => some none
  | x => do pure (some (← toStmt x))

partial def toStmt (x : Sexp) : Option Stmt :=
  match x with
  | .list [.atom "expr", p, e] => do pure (.expr (← atomNat p) (← toExpr e))
  | .list [.atom "assign", p, t, .list l, .list r] => do
    pure (.assign (← atomNat p) (← atomNat t) (← l.mapM toExpr) (← r.mapM toExpr))
  | .list [.atom "incdec", p, t, tp, e] => do
    pure (.incdec (← atomNat p) (← atomNat t) (← atomNat tp) (← toExpr e))
  | .list (.atom "block" :: p :: ss) => do pure (.block (← atomNat p) (← ss.mapM toStmt))
  | .list [.atom "if", p, init, c, body, els] => do
    let (bp, ss) ← toBlock body
    pure (.if_ (← atomNat p) (← toOptStmt init) (← toExpr c) bp ss (← toOptStmt els))
  | .list [.atom "for", p, init, c, post, body] => do
    let (bp, ss) ← toBlock body
    pure (.for_ (← atomNat p) (← toOptStmt init) (← toOptExpr c) (← toOptStmt post) bp ss)
  | .list [.atom "forin", p, k, v, it, body] => do
    let (bp, ss) ← toBlock body
    pure (.forin (← atomNat p) (← atomStr k) (← atomStr v) (← toExpr it) bp ss)
  | .list [.atom "branch", p, t] => do pure (.branch (← atomNat p) (← atomNat t))
  | .list [.atom "return", p, e] => do pure (.return_ (← atomNat p) (← toOptExpr e))
  | .list [.atom "try", p, body, c, f] => do
    let (bp, ss) ← toBlock body
    let c' ← (match c with
      | .atom "nil" => some none
      | .list [.atom "catch", cp, id, cb] => do
        let (cbp, css) ← toBlock cb
        let id' ← (match id with
          | .atom "nil" => some none
          | x => do pure (some (← atomStr x)))
        pure (some ((← atomNat cp), id', cbp, css))
      | _ => none)
    let f' ← (match f with
      | .atom "nil" => some none
      | .list [.atom "finally", fp, fb] => do
        let (fbp, fss) ← toBlock fb
        pure (some ((← atomNat fp), fbp, fss))
      | _ => none)
    pure (.try_ (← atomNat p) bp ss c' f')
  | .list [.atom "throw", p, e] => do pure (.throw (← atomNat p) (← toOptExpr e))
  | .list (.atom "decl" :: p :: t :: specs) => do
    let p ← atomNat p
    let t ← atomNat t
    if t == tParam || t == tGlobal then
      let ps ← specs.mapM (fun s => match s with
        | .list [.atom "param", sp, n, va] => do pure ((← atomNat sp), (← atomStr n), (← atomNat va) == 1)
        | _ => none)
      pure (if t == tParam then .declParam p ps else .declGlobal p ps)
    else
      let vs ← specs.mapM (fun s => match s with
        | .list [.atom "value", iota1, .list ids, .list vals] => do
          let i ← atomNat iota1
          let ids' ← ids.mapM (fun x => match x with
            | .list [ip, n] => do pure ((← atomNat ip), (← atomStr n))
            | _ => none)
          let vals' ← vals.mapM toOptExpr
          pure ((if i == 0 then none else some (i - 1)), ids', vals')
        | _ => none)
      pure (.declValue p t vs)
  | .list [.atom "empty", p] => do pure (.empty (← atomNat p))
  | _ => none
end

def parseFile (s : String) : Option (List Stmt) :=
  match parseSexp s.toList with
  | some (.list (.atom "file" :: ss), _) => ss.mapM toStmt
  | _ => none

end Driver
