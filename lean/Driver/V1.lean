import Driver.Codec
import UgoVerif.Model.V1
namespace Driver
open UgoVerif UgoVerif.Go UgoVerif.Model.V1

def parseSm (s : String) : Option SrcMap :=
  if s == "-" then some []
  else (s.splitOn ",").mapM (fun kv =>
    match kv.splitOn "=" with
    | [k, v] => do let k ← k.toNat?; let v ← v.toNat?; pure (k, v)
    | _ => none)

def showSm (m : SrcMap) : String :=
  if m.isEmpty then "-" else ",".intercalate (m.map (fun kv => s!"{kv.1}={kv.2}"))

def hexOrDash (bs : Bytes) : String := if bs.isEmpty then "-" else hexOfBytes bs

/-- `v1 conv <hex instructions|-> <k=v,…|->` -> `ok <hex|-> <k=v,…|->` | `err` | `panic` -/
def handleV1 (args : List String) : String :=
  match args with
  | ["conv", insS, smS] =>
    let ins := if insS == "-" then some [] else bytesOfHex insS.toList
    match ins, parseSm smS with
    | some ins, some sm =>
      match convFn ins sm with
      | .ok (out, m) => s!"ok {hexOrDash out} {showSm m}"
      | .err _ => "err"
      | .panic _ => "panic"
    | _, _ => "bad-op"
  | _ => "bad-op"

end Driver
