import Driver.Codec
import UgoVerif.Model.Trace
/-
  Driver for stream `pos` (C16): file sets / line tables / Position / SourcePos /
  scanner line tables / addTrace + StackTrace, answered by the Lean model.
-/
namespace Driver
open UgoVerif UgoVerif.Go UgoVerif.Model

def showFilePos (p : FilePos) : String :=
  s!"{p.filename},{p.offset},{p.line},{p.column}"

def showInts (l : List Int) : String := ",".intercalate (l.map toString)

def parseInts (s : String) : Option (List Int) :=
  if s.isEmpty then some [] else (s.splitOn ",").mapM String.toInt?

def showFileSet (s : FileSet) : String :=
  let fs := s.files.map (fun f => s!"{f.name},{f.base},{f.size},[{showInts f.lines}]")
  let last := match s.last with | some i => toString i | none => "-1"
  s!"{s.base}|{";".intercalate fs}|{last}"

def setNth {α} (l : List α) (i : Nat) (v : α) : List α := l.set i v

/-- one operation on the file set; returns the new set and the text answer -/
def fsOp (s : FileSet) (op : String) : FileSet × String :=
  match op.splitOn ":" with
  | ["A", name, b, sz] =>
    match b.toInt?, sz.toInt? with
    | some b, some sz =>
      match addFile s name b sz with
      | .ok (s', i) => (s', s!"A={i}")
      | .panic m => (s, s!"A=panic {m}")
      | .err _ => (s, "A=err")
    | _, _ => (s, "bad")
  | ["L", fi, off] =>
    match fi.toNat?, off.toInt? with
    | some fi, some off =>
      match s.files[fi]? with
      | some f =>
        let f' := addLine f off
        ({ s with files := s.files.set fi f' }, s!"L={f'.lines.length}")
      | none => (s, "bad")
    | _, _ => (s, "bad")
  | ["D", fi, ls] =>
    match fi.toNat?, parseInts ls with
    | some fi, some ls =>
      match s.files[fi]? with
      | some f => ({ s with files := s.files.set fi { f with lines := ls } }, "D")
      | none => (s, "bad")
    | _, _ => (s, "bad")
  | ["C", i] =>
    match i.toInt? with
    | some i =>
      if i ≥ s.files.length then (s, "bad") else
      ({ s with last := if i < 0 then none else some i.toNat }, "C")
    | none => (s, "bad")
  | ["P", p] =>
    match p.toInt? with
    | some p =>
      match fsPosition s p with
      | .ok (r, s') => (s', s!"P={showFilePos r}")
      | .panic m => (s, s!"P=panic {m}")
      | .err _ => (s, "P=err")
    | none => (s, "bad")
  | ["F", p] =>
    match p.toInt? with
    | some p =>
      match fsFile s p with
      | .ok (some i, s') => (s', s!"F={i}")
      | .ok (none, s') => (s', "F=-1")
      | .panic m => (s, s!"F=panic {m}")
      | .err _ => (s, "F=err")
    | none => (s, "bad")
  | ["S", fi, ln] =>
    match fi.toNat?, ln.toInt? with
    | some fi, some ln =>
      match s.files[fi]? with
      | some f =>
        match lineStart f ln with
        | .ok p => (s, s!"S={p}")
        | .panic m => (s, s!"S=panic {m}")
        | .err _ => (s, "S=err")
      | none => (s, "bad")
    | _, _ => (s, "bad")
  | ["Q", fi, p] =>
    match fi.toNat?, p.toInt? with
    | some fi, some p =>
      match s.files[fi]? with
      | some f =>
        match filePosition f p with
        | .ok r => (s, s!"Q={showFilePos r}")
        | .panic m => (s, s!"Q=panic {m}")
        | .err _ => (s, "Q=err")
      | none => (s, "bad")
    | _, _ => (s, "bad")
  | ["O", fi, p] =>
    match fi.toNat?, p.toInt? with
    | some fi, some p =>
      match s.files[fi]? with
      | some f =>
        match fileOffset f p with
        | .ok r => (s, s!"O={r}")
        | .panic m => (s, s!"O=panic {m}")
        | .err _ => (s, "O=err")
      | none => (s, "bad")
    | _, _ => (s, "bad")
  | _ => (s, "bad")

def runFsOps (s : FileSet) (ops : List String) : FileSet × List String :=
  ops.foldl (fun (acc : FileSet × List String) op =>
    let (s', r) := fsOp acc.1 op
    (s', acc.2 ++ [r])) (s, [])

def splitOps (s : String) : List String := (s.splitOn " ").filter (· ≠ "")

def parseSM (s : String) : Option SourceMap :=
  if s.isEmpty then some [] else
  (s.splitOn ",").mapM (fun kv =>
    match kv.splitOn ":" with
    | [k, v] => do let k ← k.toInt?; let v ← v.toInt?; pure (k, v)
    | _ => none)

def handlePos (args : List String) : String :=
  match args with
  | ["fs", ops] =>
    let (s, rs) := runFsOps newFileSet (splitOps ops)
    s!"{";".intercalate rs}#{showFileSet s}"
  | ["sp", sm, ips] =>
    match parseSM sm, parseInts ips with
    | some sm, some ips => showInts (ips.map (sourcePos sm))
    | _, _ => "bad-op"
  | ["fp", sm, ips] =>
    match parseSM sm, parseInts ips with
    | some sm, some ips =>
      let fr := ips.map (fun ip => getFrameSourcePos { fn := some sm, ip := ip, hasHandler := false })
      let cu := ips.map (fun ip => getSourcePos (some sm) ip)
      s!"{showInts fr}#{showInts cu}"
    | _, _ => "bad-op"
  | ["scan", hex] =>
    match bytesOfHex hex.toList with
    | some bs => showInts (scanLines bs)
    | none => "bad-op"
  | ["tr", ops, adds] =>
    match parseInts adds with
    | some ps =>
      let (s, _) := runFsOps newFileSet (splitOps ops)
      let tr := ps.foldl addTrace []
      let raw := ";".intercalate ((stackTraceRaw tr).map showFilePos)
      let withFs := match stackTrace s tr with
        | .ok l => ";".intercalate (l.map showFilePos)
        | .panic m => s!"panic {m}"
        | .err _ => "err"
      s!"{showInts tr}#{raw}#{withFs}"
    | none => "bad-op"
  | ["st", ops, trace] =>
    match parseInts trace with
    | some tr =>
      let (s, _) := runFsOps newFileSet (splitOps ops)
      let raw := ";".intercalate ((stackTraceRaw tr).map showFilePos)
      let withFs := match stackTrace s tr with
        | .ok l => ";".intercalate (l.map showFilePos)
        | .panic m => s!"panic {m}"
        | .err _ => "err"
      s!"{showInts tr}#{raw}#{withFs}"
    | none => "bad-op"
  | _ => "bad-op"

end Driver
