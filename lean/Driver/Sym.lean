import Driver.Codec
import UgoVerif.Model.Sym
import UgoVerif.Gen.SymFacts
/-
  Driver for the symbol-table model (streams `symops` and `disable`).

  symops <op> <op> …      (ops separated by blanks) -> outputs joined by `|`
     N            NewSymbolTable            F<h>,<b>     Fork(block)
     P<h>,<b>     Parent(skipBlock)         L<h>,<name>  DefineLocal
     G<h>,<name>  DefineGlobal              C<h>,<name>  defineConstLit
     S<h>,<names> SetParams                 E<h>,<b>     EnableParams
     R<h>,<name>  Resolve                   D<h>,<names> DisableBuiltin
     Q<h>         DisabledBuiltins          X<h>         nextIndex
     T<h>         state dump                M<h>         module table (compileModule)
     V<ev>,<comp>,<scopes>  evaluator table (resetCompiler)
   <h> is `-` (nil) or the decimal allocation number; names are hex, joined by `.`;
   scopes are name lists joined by `/` (`~` = no scope at all).
  disable <hex names joined by ,> <hex name> -> `builtin <idx>` | `unresolved`
-/
namespace Driver
open UgoVerif UgoVerif.Go UgoVerif.Model.Sym

def symB : Builtins := UgoVerif.Gen.SymFacts.builtinsMap

def parseHandle (s : String) : Option Handle :=
  if s == "-" then some none
  else if s.isEmpty then none
  else if s.all Char.isDigit then some (some s.toNat!) else none

def parseName (s : String) : Option Name := bytesOfHex s.toList

def parseNames (s : String) : Option (List Name) :=
  if s.isEmpty then some [] else (s.splitOn ".").mapM parseName

def parseScopes (s : String) : Option (List (List Name)) :=
  if s == "~" then some [] else (s.splitOn "/").mapM parseNames

def parseBool (s : String) : Option Bool :=
  if s == "1" then some true else if s == "0" then some false else none

def parseOp (s : String) : Option Op :=
  let cs := s.toList
  let c := cs.headD ' '
  let args := (String.ofList (cs.drop 1)).splitOn ","
  match c, args with
  | 'N', _ => some .newTable
  | 'F', [h, b] => do pure (.fork (← parseHandle h) (← parseBool b))
  | 'P', [h, b] => do pure (.parent (← parseHandle h) (← parseBool b))
  | 'L', [h, n] => do pure (.defineLocal (← parseHandle h) (← parseName n))
  | 'G', [h, n] => do pure (.defineGlobal (← parseHandle h) (← parseName n))
  | 'C', [h, n] => do pure (.defineConstLit (← parseHandle h) (← parseName n))
  | 'S', [h, ns] => do pure (.setParams (← parseHandle h) (← parseNames ns))
  | 'E', [h, b] => do pure (.enableParams (← parseHandle h) (← parseBool b))
  | 'R', [h, n] => do pure (.resolve (← parseHandle h) (← parseName n))
  | 'D', [h, ns] => do pure (.disable (← parseHandle h) (← parseNames ns))
  | 'Q', [h] => do pure (.disabled (← parseHandle h))
  | 'X', [h] => do pure (.nextIndex (← parseHandle h))
  | 'T', [h] => do pure (.state (← parseHandle h))
  | 'M', [h] => do pure (.newModuleTable (← parseHandle h))
  | 'V', [e, c, sc] => do pure (.evalReset (← parseHandle e) (← parseHandle c) (← parseScopes sc))
  | _, _ => none

def insertName (n : Name) : List Name → List Name
  | [] => [n]
  | m :: r => if bytesLt n m then n :: m :: r else m :: insertName n r

def sortNames (ns : List Name) : List Name := ns.foldr insertName []

def insertSym (s : Symbol) : List Symbol → List Symbol
  | [] => [s]
  | m :: r => if bytesLt s.name m.name then s :: m :: r else m :: insertSym s r

def b01 (b : Bool) : String := if b then "1" else "0"

def showSym (s : Symbol) : String :=
  s!"{hexOfBytes s.name},{s.index},{s.scope.toNat},{b01 s.assigned},{b01 s.constant}"

def showNames (ns : List Name) : String := ".".intercalate (ns.map hexOfBytes)

def showHandle : Handle → String
  | none => "h-"
  | some i => s!"h{i}"

def showOut : Out → String
  | .unit => "u"
  | .handle h => showHandle h
  | .sym none f => s!"s{b01 f}:none"
  | .sym (some s) f => s!"s{b01 f}:{showSym s}"
  | .error m => "e" ++ m
  | .names ns => "n" ++ showNames (sortNames ns)
  | .int i => s!"i{i}"
  | .state t hp =>
    let store := (t.store.map (·.2)).foldr insertSym []
    let dn := match t.disabledBuiltins with | none => "1" | some _ => "0"
    s!"t{b01 hp},{t.maxDefinition},{t.numDefinition},{t.numParams},[{";".intercalate (store.map showSym)}],{dn},{showNames (sortNames (t.disabledBuiltins.getD []))},[{";".intercalate (t.frees.map showSym)}],{showNames t.shadowedBuiltins},{b01 t.block},{b01 t.disableParams},{b01 t.hasConstLit},{b01 t.hasParentConstLit}"
  | .panic _ => "p"

def runSymops (ops : List String) : String :=
  let rec go (H : Heap) (ops : List String) (acc : List String) : List String :=
    match ops with
    | [] => acc.reverse
    | o :: rest =>
      match parseOp o with
      | none => ("bad-op" :: acc).reverse
      | some op =>
        let (H', out) := step symB H op
        go H' rest (showOut out :: acc)
  "|".intercalate (go [] ops [])

def handleSymops (args : List String) : String :=
  match args with
  | [ops] => runSymops ((ops.splitOn " ").filter (fun s => !s.isEmpty))
  | _ => "bad-op"

/-- `disable <D> <n>`: compile `return n` with a fresh table in which `D` is disabled:
    the identifier resolves through `Resolve` on the root table. -/
def handleDisable (args : List String) : String :=
  match args with
  | [ds, n] =>
    let dsl := if ds.isEmpty then some [] else (ds.splitOn ",").mapM parseName
    match dsl, parseName n with
    | some D, some name =>
      match disableBuiltin [newTab] D with
      | .ok ch =>
        match resolve symB ch name with
        | .ok (_, some s) => if s.scope = .builtin then s!"builtin {s.index}" else "other"
        | .ok (_, none) => "unresolved"
        | _ => "panic"
      | _ => "panic"
    | _, _ => "bad-op"
  | _ => "bad-op"

end Driver
