import Driver.Codec
import UgoVerif.Spec.Json
import UgoVerif.Spec.JsonDepth
import UgoVerif.Model.JsonEnc
namespace Driver
open UgoVerif UgoVerif.Go UgoVerif.Model.JsonEnc UgoVerif.Model.JsonScan
open UgoVerif.Gen.JsonTables (maxNestingDepth)

/-- value syntax of the `json` stream (superset of `parseVal`) -/
partial def parseJV (cs : List Char) : Option (JV × List Char) :=
  match cs with
  | 'u' :: r => some (.undefined, r)
  | 'z' :: r => some (.nil, r)
  | 'i' :: r => let (h, r) := spanHex r; do let n ← natOfHex h; pure (.int (BitVec.ofNat 64 n), r)
  | 'n' :: r => let (h, r) := spanHex r; do let n ← natOfHex h; pure (.uint (BitVec.ofNat 64 n), r)
  | 'f' :: r => let (h, r) := spanHex r; do let n ← natOfHex h; pure (.float (BitVec.ofNat 64 n), r)
  | 'c' :: r => let (h, r) := spanHex r; do let n ← natOfHex h; pure (.char (BitVec.ofNat 32 n), r)
  | 'b' :: '0' :: r => some (.bool false, r)
  | 'b' :: '1' :: r => some (.bool true, r)
  | 's' :: r => let (h, r) := spanHex r; do let b ← bytesOfHex h; pure (.str b, r)
  | 'y' :: r => let (h, r) := spanHex r; do let b ← bytesOfHex h; pure (.bytes b, r)
  | 'r' :: r => let (h, r) := spanHex r; do let b ← bytesOfHex h; pure (.raw b, r)
  | 'R' :: r => some (.rawNil, r)
  | 'e' :: r => some (.errval, r)
  | 'o' :: r => let (tn, r) := r.span (fun c => c != ' ' && c != ')'); some (.opaque (String.ofList tn), r)
  | 'a' :: '(' :: r =>
    let rec elems (cs : List Char) (acc : List JV) : Option (List JV × List Char) :=
      match cs with
      | ')' :: r => some (acc.reverse, r)
      | ' ' :: r => elems r acc
      | cs => do let (v, r) ← parseJV cs; elems r (v :: acc)
    do let (xs, r) ← elems r []; pure (.array xs, r)
  | t :: '(' :: r =>
    if t == 'm' || t == 'S' then
      let rec ents (cs : List Char) (acc : List (Bytes × JV)) : Option (List (Bytes × JV) × List Char) :=
        match cs with
        | ')' :: r => some (acc.reverse, r)
        | ' ' :: r => ents r acc
        | cs =>
          let (h, r) := spanHex cs
          match r with
          | '=' :: r => do
            let k ← bytesOfHex h
            let (v, r) ← parseJV r
            ents r ((k, v) :: acc)
          | _ => none
      do let (kvs, r) ← ents r []; pure (.map kvs, r)
    else if t == 'p' then
      match r with
      | ')' :: r => some (.ptrNil, r)
      | _ => do
        let (v, r) ← parseJV r
        match r with
        | ')' :: r => pure (.ptr v, r)
        | _ => none
    else none
  | 'q' :: q :: e :: '(' :: r => do
    let (v, r) ← parseJV r
    match r with
    | ')' :: r => pure (.opts (q == '1') (e == '1') v, r)
    | _ => none
  | _ => none

/-- `bits:hexf:hexe,...` -/
def parseFloatTable (s : String) : List (Nat × Bytes × Bytes) :=
  (s.splitOn ",").filterMap fun ent =>
    match ent.splitOn ":" with
    | [b, f, e] => do
      let n ← natOfHex b.toList
      let f ← bytesOfHex f.toList
      let e ← bytesOfHex e.toList
      pure (n, f, e)
    | _ => none

def tableLib (tab : List (Nat × Bytes × Bytes)) : JsonLib where
  appendFloat f useE :=
    match tab.find? (fun t => t.1 == f.toNat) with
    | some (_, tf, te) => if useE then te else tf
    | none => []

def showJsonRes (r : Res Bytes) : String :=
  match r with
  | .ok b => "ok " ++ hexOfBytes b
  | .err (.other "UnsupportedValueError" m) => "err value " ++ m
  | .err (.other "UnsupportedTypeError" m) => "err type " ++ m
  | .err (.other "MarshalerError" _) => "err marshaler"
  | .err e => showErr e
  | .panic m => "panic " ++ m

def showOptRes (r : Res (Option Bytes)) : String :=
  match r with
  | .ok (some b) => "ok " ++ hexOfBytes b
  | .ok none => "err"
  | .err e => showErr e
  | .panic m => "panic " ++ m

def showValid (r : Res Bool) : String :=
  match r with
  | .ok b => if b then "valid=1" else "valid=0"
  | .err e => showErr e
  | .panic m => "panic " ++ m

def handleJson (args : List String) : String :=
  match args with
  | ["marshal", vS, tabS] =>
    match parseJV vS.toList with
    | some (v, []) =>
      let tab := parseFloatTable tabS
      let L := tableLib tab
      -- the hypothesis JsonLib.OK, checked on every float of the case
      let bad := tab.filter fun t =>
        let txt := floatText L (BitVec.ofNat 64 t.1)
        !(Spec.Json.isNumber txt) || txt.any (fun x => x == 0x22 || x == 0x5C || x < 0x20)
      if bad.isEmpty then showJsonRes (marshal L v)
      else "ASSUMPTION-VIOLATED float_token"
    | _ => "bad-op"
  | ["valid", h] =>
    match bytesOfHex h.toList with
    | some bs => showValid (valid bs) ++ (if Spec.Json.isJson bs then " spec=1" else " spec=0")
        ++ (if Spec.Json.isJsonD maxNestingDepth bs then " specd=1" else " specd=0")
    | none => "bad-op"
  | ["validonly", h] =>
    match bytesOfHex h.toList with
    | some bs => showValid (valid bs) ++ (if Spec.Json.isJsonD maxNestingDepth bs then " specd=1" else " specd=0")
    | none => "bad-op"
  | ["compact", e, h] =>
    match bytesOfHex h.toList with
    | some bs => showOptRes (compact (e == "1") bs)
    | none => "bad-op"
  | ["indent", p, i, h] =>
    match bytesOfHex p.toList, bytesOfHex i.toList, bytesOfHex h.toList with
    | some p, some i, some bs => showOptRes (indent p i bs)
    | _, _, _ => "bad-op"
  | _ => "bad-op"

end Driver
