import Driver.VMDrv
import UgoVerif.VM.Reset
/-
  Driver request `vmhist <n> <run_1> … <run_n>`: a history of runs chained on ONE model
  state.  run_i = `opts:abortAt|fuel|numModules|main|consts|globals|args` (the fields of a
  `vm` request joined by `|`); opts: R = SetRecover(true), C = Clear() before the run,
  S = SetBytecode(bc_i) before the run.  abortAt = n > 0: the observer calls Abort() while
  instruction n is fetched (the loop ends before instruction n+1).
  Answer: the outcome line of every run, then the outcome of the last run on a new VM.
-/
namespace Driver.VMHist
open Driver UgoVerif UgoVerif.Go UgoVerif.VM

structure HRun where
  recover : Bool
  clear : Bool
  setbc : Bool
  abortAt : Nat
  fuel : Nat
  nm : Nat
  main : Addr
  consts : Array V
  g : V
  args : List V

def parseHRun (s : String) : B (Option HRun) := do
  match s.splitOn "|" with
  | [optsS, fuelS, nmS, mainS, constsS, globalsS, argsS] =>
    let (opts, ab) := match optsS.splitOn ":" with
      | [o, a] => (o, a.toNat!)
      | _ => (optsS, 0)
    match parseFn mainS with
    | none => pure none
    | some mc =>
      let mainV ← addFn mc
      let mut consts : Array V := #[]
      for w in words constsS do
        match (← parseConst w) with
        | some v => consts := consts.push v
        | none => return none
      let g ← (if globalsS == "-" then pure V.nil else
        match parseValStr globalsS with
        | some v => ofVal v
        | none => pure V.nil)
      let mut as : List V := []
      for w in words argsS do
        match parseValStr w with
        | some v => as := as ++ [← ofVal v]
        | none => return none
      match mainV with
      | .cfun ma =>
        pure (some { recover := opts.contains 'R', clear := opts.contains 'C', setbc := opts.contains 'S',
                     abortAt := ab, fuel := fuelS.toNat!, nm := nmS.toNat!, main := ma, consts := consts,
                     g := g, args := as })
      | _ => pure none
  | _ => pure none

/-- `Run` during which the observer aborts the VM while instruction `limit` is fetched:
    the model executes `limit` instructions, then the abort flag is up.  Same shape as
    `runFrom.go` (reruns after recovered panics). -/
partial def goAbort (limit : Nat) (s : State) : Outcome × State :=
  if s.steps ≥ limit then
    runFrom.go nativeFloat 2 2 { s with abort := true }
  else
    match (loopF nativeFloat (limit - s.steps)).run.run s with
    | (.ok none, s) => goAbort limit s
    | (.ok (some ()), s) =>
      match clearCurrentFrame.run.run s with
      | (_, s) => runFrom.finish s
    | (.error (.unsupported m), s) => (.unsupported m, s)
    | (.error (.panic m), s) =>
      if s.noPanic then
        match (handlePanic m).run.run s with
        | (.error (.panic m'), s) => (.goPanic m', s)
        | (.error (.unsupported m'), s) => (.unsupported m', s)
        | (.ok (), s) => if s.err.isNone then goAbort limit s else runFrom.finish s
      else (.goPanic m, s)

def runAbortAt (limit : Nat) (g : V) (args : List V) (s0 : State) : Outcome × State :=
  match (prologue g args).run.run s0 with
  | (.error (.panic m), s) => (.goPanic m, s)
  | (.error (.unsupported m), s) => (.unsupported m, s)
  | (.ok (), s) => goAbort limit s

def showRun (out : Outcome) (s : State) : String :=
  let outS := match out with
    | .value v => "val " ++ showVal (imageOf s.heap 64 v)
    | .error e => showVmErr s e
    | .goPanic _ => "panic"
    | .unsupported m => "unsupported " ++ m
    | .outOfFuel => "fuel"
  let gS := showVal (imageOf s.heap 64 s.globals)
  s!"out={outS}\tsteps={s.steps}\tth={traceHash s.trace}\tglobals={gS}"

def execHRun (r : HRun) (s : State) : Outcome × State :=
  let s := setRecover r.recover s
  if r.abortAt == 0 then runFrom nativeFloat r.fuel r.g r.args s
  else runAbortAt r.abortAt r.g r.args s

def handleVMHist (args : List String) : String :=
  let args := match args.reverse with
    | c :: rest => if c.startsWith "#" then rest.reverse else args
    | [] => args
  match args with
  | _n :: runs =>
    let build : B (Option (List HRun)) := do
      let mut rs : List HRun := []
      for w in runs do
        match (← parseHRun w) with
        | some r => rs := rs ++ [r]
        | none => return none
      pure (some rs)
    match build.run {} with
    | (some (r0 :: rest), b) =>
      let s0 := newState b.codes b.heap r0.consts r0.main r0.nm
      let (o0, s1) := execHRun r0 s0
      let (outs, _, lastR) := rest.foldl (fun (acc : List String × State × HRun) r =>
        let (outs, s, _) := acc
        let s := if r.clear then clear s else s
        let s := if r.setbc then setBytecode r.consts r.main r.nm s else s
        let s := resetRecording s
        let (o, s') := execHRun r s
        (outs ++ [showRun o s'], s', r)) ([showRun o0 s1], s1, r0)
      let fresh := newState b.codes b.heap lastR.consts lastR.main lastR.nm
      let (fo, fs) := execHRun lastR fresh
      " || ".intercalate outs ++ " || fresh: " ++ showRun fo fs
    | _ => "bad-op"
  | _ => "bad-op"

end Driver.VMHist
