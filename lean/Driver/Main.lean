import Driver.Ops
import Driver.VMDrv
import Driver.Json
import Driver.Sym
import Driver.Conv
import Driver.CompileDrv
import Driver.CompileDis
import Driver.SemDrv
import Driver.Pos
import Driver.V1
import Driver.Sched
import Driver.Invoke
import Driver.ModStoreDrv
import Driver.Builtins
import Driver.Enc
import Driver.EvalDrv
import Driver.VMHist
import Driver.OptDrv
open Driver

/-- a trailing field starting with '#' carries human-readable context and is ignored -/
def stripComment (fs : List String) : List String :=
  match fs.reverse with
  | c :: rest => if c.startsWith "#" && rest.length > 1 then rest.reverse else fs
  | [] => fs

def dispatch (line : String) : String :=
  match stripComment (line.splitOn "\t") with
  | "noop" :: _ => "ok"
  | "ops" :: args => handleOps args
  | "unop" :: args => handleUnop args
  | "vm" :: args => handleVM args
  | "json" :: args => handleJson args
  | "symops" :: args => handleSymops args
  | "disable" :: args => handleDisable args
  | "conv" :: args => handleConv args
  | "compile" :: args => handleCompile args
  | "compiled" :: args => handleCompileDis args
  | "sem" :: args => handleSem args
  | "optast" :: args => handleOptAst args
  | "pos" :: args => handlePos args
  | "v1" :: args => handleV1 args
  | "sched" :: args => handleSched args
  | "inv" :: args => handleInv args
  | "ms" :: args => handleMs args
  | "bi" :: args => handleBuiltins args
  | "enc" :: args => EncDrv.handleEnc args
  | "dec" :: args => EncDrv.handleDec args
  | "eval" :: args => handleEval args
  | "vmhist" :: args => VMHist.handleVMHist args
  | "skip" :: _ => "out=unsupported impl-only"
  | _ => "bad-op"

partial def loop (h : IO.FS.Stream) (out : IO.FS.Stream) : IO Unit := do
  let line ← h.getLine
  if line.isEmpty then return ()
  let line := (line.dropRightWhile (· == '\n')).dropRightWhile (· == '\r')
  out.putStrLn (dispatch line)
  loop h out

def main : IO Unit := do
  let out ← IO.getStdout
  loop (← IO.getStdin) out
  out.flush
