import Driver.Ops
import Driver.Enc
open Driver

def dispatch (line : String) : String :=
  match line.splitOn "\t" with
  | "ops" :: args => handleOps args
  | "enc" :: args => handleEnc args
  | "dec" :: args => handleDec args
  | _ => "bad-op"

partial def loop (h : IO.FS.Stream) (out : IO.FS.Stream) : IO Unit := do
  let line ← h.getLine
  if line.isEmpty then return ()
  let line := (line.dropRightWhile (· == '\n')).dropRightWhile (· == '\r')
  out.putStrLn (dispatch line)
  loop h out

def main : IO Unit := do
  let out ← IO.getStdout
  loop (← IO.getStdin) out
  out.flush
