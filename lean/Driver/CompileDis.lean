import Driver.CompileDrv
/-
  `compiled <hex,hex,…|-> <ast>` → the compiler model (NoOptimize) run with a DISABLED set: the
  `disabled` argument of `compileFile` is what C13's `no_getbuiltin_compiled` quantifies over; stream
  `disablecompile` compares it with the real compiler whose symbol table got `DisableBuiltin(D…)`.
-/
namespace Driver
open UgoVerif UgoVerif.Go UgoVerif.Ast UgoVerif.Compile

def parseDisabled (ds : String) : Option (List String) :=
  if ds.isEmpty || ds == "-" then some []
  else (ds.splitOn ",").mapM fun h =>
    match bytesOfHex h.toList with
    | some bs => String.fromUTF8? (ByteArray.mk bs.toArray)
    | none => none

def handleCompileDis (args : List String) : String :=
  match args with
  | [ds, astS] =>
    match parseDisabled ds, parseFile astS with
    | some D, some file =>
      match compileFile builtinsMap D file with
      | .ok bc => "ok " ++ showFn bc.main ++ " ; " ++ " ".intercalate (bc.constants.toList.map showConst)
      | .error (.err pos msg) => s!"err {pos} {msg}"
      | .error (.bare msg) => s!"err - {msg}"
      | .error (.panic _) => "panic"
      | .error (.unsupported m) => "unsupported " ++ m
    | _, _ => "bad-ast"
  | _ => "bad-op"

end Driver
