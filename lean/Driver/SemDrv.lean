import Driver.AstParse
import Driver.VMDrv
import UgoVerif.Spec.Sem
/-
  `sem <fuel> <ast> <globals> <args;…>`: run the reference semantics on the AST.
  Answer: `out=<outcome>\tglobals=<final globals>` in the same canonical form as the `vm` request.
-/
namespace Driver
open UgoVerif UgoVerif.Go UgoVerif.VM UgoVerif.Sem

def handleSem (args : List String) : String :=
  match args with
  | [fuelS, astS, globalsS, argsS] =>
    match parseFile astS with
    | none => "bad-ast"
    | some file =>
      let build : B (Option (V × List V)) := do
        let g ← (if globalsS == "-" then pure V.nil else
          match parseValStr globalsS with
          | some v => ofVal v
          | none => pure V.nil)
        let mut as : List V := []
        for w in words argsS do
          match parseValStr w with
          | some v => as := as ++ [← ofVal v]
          | none => return none
        pure (some (g, as))
      match build.run {} with
      | (none, _) => "bad-op"
      | (some (g, as), b) =>
        let s0 := newState #[] b.heap #[] 0 0
        let prog : VM.M Sem.Result := do
          let g' ← (match g with
            | .nil => do let a ← alloc (.map []); pure (V.map a)
            | g => pure g)
          modS fun s => { s with globals := g' }
          let (r, _) ← (runProgram nativeFloat fuelS.toNat! file as).run {}
          pure r
        match prog.run.run s0 with
        | (.ok (.value v), s) =>
          s!"out=val {showVal (imageOf s.heap 64 v)}\tglobals={showVal (imageOf s.heap 64 s.globals)}"
        | (.ok (.error e), s) =>
          s!"out={showVmErr s (.rt e)}\tglobals={showVal (imageOf s.heap 64 s.globals)}"
        | (.error (.panic _), _) => "out=panic"
        | (.error (.unsupported m), _) => "out=unsupported " ++ m
  | _ => "bad-op"

end Driver
