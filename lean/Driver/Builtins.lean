import Driver.Codec
import UgoVerif.Model.Builtins
/-
  Driver for the `builtins` stream (C19).

  request:  bi <fn> <k> <hasVM> <arg>*          k = number of fixed arguments (the rest are variadic)
  <arg>  =  <value>|<int>|<hex of String()>|<flags>
            <int>   = `-` or the decimal result of ugo.ToGoInt / ToGoInt64 on the value
            <flags> = bit 0 is-a-Go-error, 1 CanCall, 2 compiled function, 3 *Location
  answer:   ok <value> | err <Name> <Message> | panic <msg>
  Results of library calls whose value the model does not compute print as `olib:0`.
-/
namespace Driver
open UgoVerif UgoVerif.Go UgoVerif.Model.Builtins

structure ArgInfo where
  val : Val
  key : String
  int : Option Int
  str : Bytes
  flags : Nat

def parseInt (s : String) : Option Int :=
  if s == "-" then none
  else if s.startsWith "-" then (s.drop 1).toNat?.map fun n => -(n : Int)
  else s.toNat?.map fun n => (n : Int)

def parseArg (s : String) : Option ArgInfo :=
  match s.splitOn "|" with
  | [v, i, st, fl] => do
    let val ← parseValStr v
    let str ← bytesOfHex st.toList
    let flags ← fl.toNat?
    pure { val := val, key := showVal val, int := parseInt i, str := str, flags := flags }
  | _ => none

def findArg (infos : List ArgInfo) (v : Val) : Option ArgInfo :=
  let k := showVal v
  infos.find? fun a => a.key == k

def clampInt (o : Option Int) : Option Int :=
  match o with
  | some n => if minInt ≤ n ∧ n ≤ maxInt then some n else none
  | none => none

theorem clampInt_range (o : Option Int) (n : Int) (h : clampInt o = some n) : minInt ≤ n ∧ n ≤ maxInt := by
  unfold clampInt at h
  cases o with
  | none => simp at h
  | some m =>
    simp only at h
    split at h
    · rename_i hr
      have : m = n := by simpa using h
      subst this; exact hr
    · simp at h

def libVal : Val := .opaque "lib" 0

def mkEnv (infos : List ArgInfo) : Env where
  toGoInt v := clampInt ((findArg infos v).bind (·.int))
  int_range v n h := clampInt_range _ n h
  toStr v := match findArg infos v with | some a => a.str | none => []
  makeLimit := 281474976710656
  isError v := match findArg infos v with | some a => a.flags % 2 == 1 | none => false
  canCall v := match findArg infos v with | some a => (a.flags / 2) % 2 == 1 | none => false
  isCompiled v := match findArg infos v with | some a => (a.flags / 4) % 2 == 1 | none => false
  lib _ _ := libVal

def isLocationOf (infos : List ArgInfo) (v : Val) : Bool :=
  match findArg infos v with | some a => (a.flags / 8) % 2 == 1 | none => false

/-- the generated adapters around typed bodies, as instances of the template:
    CheckLen(n), conversions in order (first failure wins), body -/
def adapter2 (c : Call) (body : Val → Val → Res Val) : Res Val :=
  if c.len ≠ 2 then .err (wrongNumArgs s!"want=2 got={c.len}")
  else
    match c.get 0, c.get 1 with
    | .ok a, .ok b => body a b
    | .panic m, _ => .panic m
    | _, .panic m => .panic m
    | .err e, _ => .err e
    | _, .err e => .err e

def makeArrayCall (E : Env) (c : Call) : Res Val :=
  adapter2 c fun a b =>
    match E.toGoInt a with
    | none => .err (argTypeErr "1st" "int" a.typeName)
    | some n => makeArray E n b

def repeatCall (E : Env) (c : Call) : Res Val :=
  adapter2 c fun a b =>
    match E.toGoInt b with
    | none => .err (argTypeErr "2nd" "int" b.typeName)
    | some n => repeatB E a n

def stringsRepeatCall (E : Env) (c : Call) : Res Val :=
  adapter2 c fun a b =>
    match a with
    | .undefined => .err (argTypeErr "1st" "string" "undefined")
    | _ =>
      match E.toGoInt b with
      | none => .err (argTypeErr "2nd" "int" b.typeName)
      | some n => stringsRepeat E (E.toStr a) n

def runFn (fn : String) (E : Env) (infos : List ArgInfo) (c : Call) : Option (Res Val) :=
  match fn with
  | "makeArray" => some (makeArrayCall E c)
  | "repeat" => some (repeatCall E c)
  | "stringsRepeat" => some (stringsRepeatCall E c)
  | "padLeft" => some (pad E c true)
  | "padRight" => some (pad E c false)
  | "append" => some (appendB c)
  | "bytes" => some (bytesB c)
  | "sprintf" => some (sprintfB E c)
  | "println" => some (printlnB c)
  | "isError" => some (isErrorB E c)
  | "globals" => some (globalsB E c)
  | "errorNew" => some (errorNewB E c.all)
  | "replace" => some (replaceB E c)
  | "split" => some (splitB E c)
  | "toValidUTF8" => some (toValidUTF8B E c)
  | "invoke01" => some (stringInvoke E c 0 1)
  | "invoke10" => some (stringInvoke E c 1 0)
  | "fmtPrint" => some (fmtPrint E c)
  | "fmtPrintf" => some (fmtPrintf E c)
  | "unix" => some (unixB E c)
  | "date" => some (dateB E c (isLocationOf infos))
  | _ => none

def handleBuiltins (args : List String) : String :=
  match args with
  | fn :: kS :: vmS :: rest =>
    match kS.toNat?, rest.mapM parseArg with
    | some k, some infos =>
      let vals := infos.map (·.val)
      let c : Call := { args := vals.take k, vargs := vals.drop k, hasVM := vmS == "1" }
      match runFn fn (mkEnv infos) infos c with
      | some r => (showRes r).trimRight
      | none => "bad-fn"
    | _, _ => "bad-args"
  | _ => "bad-op"

end Driver
