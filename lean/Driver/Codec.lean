import UgoVerif.Go.Val
/-
  Line-protocol codec for the driver: values, byte strings, results.
  Not part of the proofs; tied to the Go side by every correspondence stream.
-/
namespace Driver
open UgoVerif.Go

def hexDigit (n : Nat) : Char :=
  if n < 10 then Char.ofNat (48 + n) else Char.ofNat (87 + n)

def hexOfNat (width : Nat) (n : Nat) : String :=
  let rec go (k : Nat) (n : Nat) (acc : List Char) : List Char :=
    match k with
    | 0 => acc
    | k+1 => go k (n / 16) (hexDigit (n % 16) :: acc)
  String.ofList (go width n [])

def hexOfBytes (bs : Bytes) : String :=
  String.ofList (bs.foldr (fun b acc => hexDigit (b.toNat / 16) :: hexDigit (b.toNat % 16) :: acc) [])

def hexVal (c : Char) : Option Nat :=
  if '0' ≤ c && c ≤ '9' then some (c.toNat - 48)
  else if 'a' ≤ c && c ≤ 'f' then some (c.toNat - 87)
  else if 'A' ≤ c && c ≤ 'F' then some (c.toNat - 55)
  else none

def natOfHex (cs : List Char) : Option Nat :=
  cs.foldlM (fun acc c => do let d ← hexVal c; pure (acc * 16 + d)) 0

def bytesOfHex : List Char → Option Bytes
  | [] => some []
  | a :: b :: rest => do
    let x ← hexVal a; let y ← hexVal b
    let r ← bytesOfHex rest
    pure (UInt8.ofNat (x * 16 + y) :: r)
  | _ => none

def canonNaN (x : F64) : F64 := if x.isNaN then 0x7FF8000000000001#64 else x

/-- split the leading run of hex digits -/
def spanHex (cs : List Char) : List Char × List Char := cs.span (fun c => (hexVal c).isSome)

partial def parseVal (cs : List Char) : Option (Val × List Char) :=
  match cs with
  | 'u' :: r => some (.undefined, r)
  | 'i' :: r => let (h, r) := spanHex r; do let n ← natOfHex h; pure (.int (BitVec.ofNat 64 n), r)
  | 'n' :: r => let (h, r) := spanHex r; do let n ← natOfHex h; pure (.uint (BitVec.ofNat 64 n), r)
  | 'f' :: r => let (h, r) := spanHex r; do let n ← natOfHex h; pure (.float (BitVec.ofNat 64 n), r)
  | 'c' :: r => let (h, r) := spanHex r; do let n ← natOfHex h; pure (.char (BitVec.ofNat 32 n), r)
  | 'b' :: '0' :: r => some (.bool false, r)
  | 'b' :: '1' :: r => some (.bool true, r)
  | 's' :: r => let (h, r) := spanHex r; do let b ← bytesOfHex h; pure (.str b, r)
  | 'y' :: r => let (h, r) := spanHex r; do let b ← bytesOfHex h; pure (.bytes b, r)
  | 'a' :: '(' :: r =>
    let rec elems (cs : List Char) (acc : List Val) : Option (List Val × List Char) :=
      match cs with
      | ')' :: r => some (acc.reverse, r)
      | ' ' :: r => elems r acc
      | cs => do let (v, r) ← parseVal cs; elems r (v :: acc)
    do let (xs, r) ← elems r []; pure (.array xs, r)
  | 'm' :: '(' :: r =>
    let rec ents (cs : List Char) (acc : List (Bytes × Val)) : Option (List (Bytes × Val) × List Char) :=
      match cs with
      | ')' :: r => some (acc.reverse, r)
      | ' ' :: r => ents r acc
      | cs =>
        let (h, r) := spanHex cs
        match r with
        | '=' :: r => do
          let k ← bytesOfHex h
          let (v, r) ← parseVal r
          ents r ((k, v) :: acc)
        | _ => none
    do let (kvs, r) ← ents r []; pure (.map kvs, r)
  | 'o' :: r =>
    let (tn, r) := r.span (· != ':')
    match r with
    | ':' :: r =>
      let (d, r) := r.span Char.isDigit
      some (.opaque (String.ofList tn) (String.ofList d).toNat!, r)
    | _ => none
  | _ => none

def parseValStr (s : String) : Option Val :=
  match parseVal s.toList with
  | some (v, []) => some v
  | _ => none

/-- insertion sort of map entries by key, for canonical printing -/
def insertKV (p : Bytes × Val) : List (Bytes × Val) → List (Bytes × Val)
  | [] => [p]
  | q :: r => if bytesCompare p.1 q.1 == -1 then p :: q :: r else q :: insertKV p r

partial def showVal : Val → String
  | .undefined => "u"
  | .int v => "i" ++ hexOfNat 16 v.toNat
  | .uint v => "n" ++ hexOfNat 16 v.toNat
  | .float v => "f" ++ hexOfNat 16 (canonNaN v).toNat
  | .char v => "c" ++ hexOfNat 8 v.toNat
  | .bool b => if b then "b1" else "b0"
  | .str s => "s" ++ hexOfBytes s
  | .bytes s => "y" ++ hexOfBytes s
  | .array xs => "a(" ++ " ".intercalate (xs.map showVal) ++ ")"
  | .map kvs =>
    let sorted := kvs.foldr insertKV []
    "m(" ++ " ".intercalate (sorted.map fun (k, v) => hexOfBytes k ++ "=" ++ showVal v) ++ ")"
  | .opaque tn i => "o" ++ tn ++ ":" ++ toString i

def showErr : Err → String
  | .zeroDivision => "err ZeroDivisionError"
  | .operandType t l r => s!"err TypeError unsupported operand types for '{t}': '{l}' and '{r}'"
  | .typeErr m => s!"err TypeError {m}"
  | .invalidOperator _ => "err InvalidOperatorError"
  | .other n m => s!"err {n} {m}"

def showRes (r : Res Val) : String :=
  match r with
  | .ok v => "ok " ++ showVal v
  | .err e => showErr e
  | .panic m => "panic " ++ m

/-- native IEEE-754 instance of the float parameter -/
def fOfBits (x : F64) : Float := Float.ofBits (UInt64.ofBitVec x)
def fToBits (x : Float) : F64 := x.toBits.toBitVec

def nativeFloat : FloatOps where
  add a b := fToBits (fOfBits a + fOfBits b)
  sub a b := fToBits (fOfBits a - fOfBits b)
  mul a b := fToBits (fOfBits a * fOfBits b)
  div a b := fToBits (fOfBits a / fOfBits b)
  neg a := a ^^^ 0x8000000000000000#64
  ofInt x := fToBits (Int64.ofBitVec x).toFloat
  ofUint x := fToBits (UInt64.ofBitVec x).toFloat

def tokOfName : String → Option Tok
  | "Add" => some .Add | "Sub" => some .Sub | "Mul" => some .Mul | "Quo" => some .Quo
  | "Rem" => some .Rem | "And" => some .And | "Or" => some .Or | "Xor" => some .Xor
  | "Shl" => some .Shl | "Shr" => some .Shr | "AndNot" => some .AndNot
  | "Less" => some .Less | "Greater" => some .Greater | "LessEq" => some .LessEq
  | "GreaterEq" => some .GreaterEq | "Equal" => some .Equal | "NotEqual" => some .NotEqual
  | "Not" => some .Not | "LAnd" => some .LAnd | "LOr" => some .LOr
  | _ => none

end Driver
